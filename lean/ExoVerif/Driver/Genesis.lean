import ExoVerif.Driver.Common
import ExoVerif.Model.Genesis
import ExoVerif.Model.GenesisAssets
import ExoVerif.Model.GenesisOperator
import ExoVerif.Model.GenesisMods
import ExoVerif.Model.GenesisValSet
import ExoVerif.Model.GenesisDue
import ExoVerif.Model.GenesisDelegation
/- driver for the C18 correspondence: the harness describes the cross-module core of the real state before the
   export (`gen.und`, `gen.q`, `gen.cur`, `gen.prev`, `gen.rev`, `gen.val`), `gen.roundtrip` prints what the model says the
   re-imported chain holds (undelegations with hold counts, dogfood queues, reverse key lookups, validator set).
   x/assets: the four prefix stores read raw before the export (`gen.ap` params, `gen.ac` chain, `gen.at` token, `gen.ad`
   staker row, `gen.ao` operator pool row — each with its store key); `gen.assets` prints the verdict of
   validateAssets on exportAssets and the stores initAssets rebuilds from it.
   x/operator: `gen.oo` operator info (address, earnings address), `gen.ok` one chain of a key record, `gen.os` opted state,
   `gen.ou` (AVS, operator) USD value, `gen.oa` AVS USD value, each in store order; `gen.operator` prints the verdict of
   validateOperator on exportOperator and the operator infos / USD values initOperator rebuilds.
   x/exomint, x/feedistribution: `gen.ep` the epoch identifiers x/epochs holds, `gen.mp` / `gen.dp` the params;
   `gen.params` prints the params initMint / initDistr leave after exportMint / exportDistr (`init=panic` when the epoch
   identifier is unknown).
   x/delegation rows: `gen.dl` one row of the delegation-state store (staker, asset, operator, share, pending);
   `gen.pools` prints, per row, the pool the readers find for it on the re-imported x/assets stores and the amount the
   row's share stands for (`missing` = ErrNoOperatorAssetKey).
   validator set: `gen.jl` the jail status of one stored validator (IsValidatorJailed), `gen.tp` LastTotalPower (stored
   validators = `gen.val`, reverse lookups = `gen.rev`); `gen.valset` prints what initVals (exportVals s) stores, its
   LastTotalPower, the validators returned to the consensus engine and the jail status per stored validator.
   import height: `gen.h` the height InitChain runs InitGenesis at (the export height = last committed height + 1);
   `gen.roundtrip` prints `import-failed` when SetUndelegationRecords rejects an exported record at that height
   (x/delegation InitGenesis panics), Model/GenesisDue.lean.
   undelegation records: `gen.uv id submitted complete amount actual pending` one exported record with its
   ActualCompletedAmount (what a slash leaves); prints the verdict of validateUnd (`panic` for a nil amount: `.GT` on nil). -/
namespace ExoVerif.Driver.Genesis
open ExoVerif.Genesis ExoVerif.Driver

def empty : Core := { unds := [], queues := [], curKeys := [], prevKeys := [], reverse := [], vals := [], epochs := [] }

def insertSorted (x : String) : List String → List String
  | [] => [x]
  | y :: ys => if x < y then x :: y :: ys else y :: insertSorted x ys

def sortStrings (xs : List String) : List String := xs.foldl (fun acc x => insertSorted x acc) []

def showCore (s : Core) : String :=
  let us := sortStrings (s.unds.map (fun u => s!"{u.id} {u.complete} {u.amount} {u.hold}"))
  let qs := s.queues.map (fun q => s!"{q.pfx} {q.epoch} {q.item}")
  let rs := sortStrings (s.reverse.map (fun r => s!"{r.1} {r.2}"))
  let vs := sortStrings (s.vals.map (fun v => s!"{v.1} {v.2}"))
  "und=[" ++ joinWith "," us ++ "] q=[" ++ joinWith "," qs ++ "] rev=[" ++ joinWith "," rs ++ "] val=[" ++ joinWith "," vs ++ "]"

def emptyAssets : Assets := { params := ⟨"-", "-"⟩, chains := [], tokens := [], deposits := [], opAssets := [] }

def showAssets (a : Assets) : String :=
  let cs := a.chains.map (fun p => s!"{p.1}:{p.2.lzID}:{p.2.name}:{p.2.addrLen}:{p.2.rest}")
  let ts := a.tokens.map (fun p => s!"{p.1}:{p.2.lzID}:{p.2.addr}:{p.2.decimals}:{p.2.total}:{p.2.rest}")
  let ds := a.deposits.map (fun p => s!"{p.1}:{p.2.total}:{p.2.withdrawable}:{p.2.pending}")
  let os := a.opAssets.map (fun p => s!"{p.1}:{p.2.total}:{p.2.pending}:{p.2.totalShare}:{p.2.opShare}")
  s!"params={a.params.gateway}:{a.params.topic} chains=[" ++ joinWith "," cs ++ "] tokens=[" ++ joinWith "," ts ++ "] dep=[" ++
    joinWith "," ds ++ "] ops=[" ++ joinWith "," os ++ "]"

/-- the client chain name travels hex-encoded ("-" = empty): only its emptiness matters to the model -/
def nameOf (h : String) : String := if h == "-" then "" else h
def showName (a : Assets) : Assets :=
  { a with chains := a.chains.map (fun p => (p.1, { p.2 with name := if p.2.name == "" then "-" else p.2.name })) }

def assetsRoundtrip (a : Assets) : String :=
  let d := exportAssets a
  let v := if validateAssets d then "true" else "false"
  match initAssets d with
  | none => s!"validate={v} init=panic"
  | some a' => s!"validate={v} init=ok " ++ showAssets (showName a')

def emptyOperator : OperatorMod := { operators := [], keys := [], optStates := [], usd := [], avsUsd := [] }

def showOperator (o : OperatorMod) : String :=
  let os := o.operators.map (fun p => s!"{p.1}:{if p.2 == "" then "-" else p.2}")
  let us := o.usd.map (fun p => s!"{p.2.avs}:{p.2.operator}:{p.2.self}:{p.2.total}:{p.2.active}")
  let as := o.avsUsd.map (fun p => s!"{p.1}:{p.2}")
  "ops=[" ++ joinWith "," os ++ "] usd=[" ++ joinWith "," us ++ "] avs=[" ++ joinWith "," as ++ "]"

def operatorRoundtrip (o : OperatorMod) : String :=
  let d := exportOperator o
  let v := if validateOperator d then "true" else "false"
  match initOperator d with
  | none => s!"validate={v} init=panic"
  | some o' => s!"validate={v} " ++ showOperator o'

structure Mods where
  epochs : List String
  mint : MintParams
  distr : DistrParams
deriving Inhabited

def emptyMods : Mods := ⟨[], ⟨"-", 0, "-"⟩, ⟨"-", 0⟩⟩

def paramsRoundtrip (m : Mods) : String :=
  match initMint m.epochs (exportMint m.mint), initDistr m.epochs (exportDistr ⟨m.distr, [], [], [], [], []⟩) with
  | some mp, some d => s!"init=ok mint={mp.mintDenom}:{mp.epochReward}:{mp.epochIdentifier} distr={d.params.epochIdentifier}:{d.params.communityTax}"
  | _, _ => "init=panic"

/-- `gen.pools`: for every delegation row of the original chain (`gen.dl`, store order), what GetOperatorSpecifiedAssetInfo
    and TokensFromShares answer on the state initAssets rebuilds from the export -/
def poolsRoundtrip (a : Assets) (rows : List DelegRow) : String :=
  match initAssets (exportAssets a) with
  | none => "init=panic"
  | some a' =>
    let ls := rows.map (fun r =>
      match poolOfRow a' r with
      | none => s!"{r.key}=missing"
      | some (p, amt) =>
        let am := match amt with | some n => toString n | none => "err"
        s!"{r.key}={p.total}:{p.pending}:{p.totalShare}:{p.opShare}:{am}")
    "init=ok pools=[" ++ joinWith "," ls ++ "]"

/-- `gen.valset`: the validator-set part of x/dogfood after export + import (code as it is) -/
def valsetRoundtrip (core : Core) (jl : List (String × Bool)) (tp : Int) : String :=
  let pre : ValSt := { vals := core.vals, total := tp, reverse := core.reverse, jailedOps := [] }
  let s : ValSt := { pre with jailedOps := (jl.filter (·.2)).filterMap (fun j => operatorOf pre j.1) }
  match roundtripVals codeValCfg s with
  | none => "init=panic"
  | some r =>
    let vs := sortStrings (r.st.vals.map (fun v => s!"{v.1} {v.2}"))
    let us := sortStrings (r.updates.map (fun v => s!"{v.1} {v.2}"))
    let js := sortStrings (r.st.vals.map (fun v => s!"{v.1} {if isJailed r.st v.1 then 1 else 0}"))
    "init=ok val=[" ++ joinWith "," vs ++ s!"] total={r.st.total} upd=[" ++ joinWith "," us ++ "] jailed=[" ++ joinWith "," js ++ "]"

structure St where
  core : Core
  assets : Assets
  operator : OperatorMod
  mods : Mods
  delegs : List DelegRow := []
  jl : List (String × Bool) := []
  tp : Int := 0
  h : Int := 0

def step (st : St) (w : List String) : St × String :=
  let s := st.core
  let a := st.assets
  let o := st.operator
  match w with
  | ["gen.reset"] => (⟨empty, emptyAssets, emptyOperator, emptyMods, [], [], 0, 0⟩, "ok")
  | ["gen.h", n] => ({ st with h := parseInt! n }, "ok")
  | ["gen.jl", cons, f] => ({ st with jl := st.jl ++ [(cons, f == "1")] }, "ok")
  | ["gen.tp", p] => ({ st with tp := parseInt! p }, "ok")
  | ["gen.valset"] => (st, valsetRoundtrip s st.jl st.tp)
  | ["gen.dl", sk, asset, op, sh, pd] => ({ st with delegs := st.delegs ++ [⟨sk, asset, op, parseInt! sh, parseInt! pd⟩] }, "ok")
  | ["gen.pools"] => (st, poolsRoundtrip a st.delegs)
  | ["gen.uv", _, sub, c, am, ac, p] =>
    (st, if am == "nil" || ac == "nil" then "panic"
         else if validateUnd ⟨parseInt! sub, parseInt! c, parseInt! am, parseInt! ac, p == "1"⟩ then "ok" else "rej")
  | ["gen.und", id, c, am, h] => ({ st with core := { s with unds := s.unds ++ [⟨id, parseInt! c, parseInt! am, parseInt! h⟩] } }, "ok")
  | ["gen.q", p, e, it] => ({ st with core := { s with queues := s.queues ++ [⟨parseNat! p, parseInt! e, it, []⟩] } }, "ok")
  | ["gen.q", p, e, it, recs] => ({ st with core := { s with queues := s.queues ++ [⟨parseNat! p, parseInt! e, it, recs.splitOn "+"⟩] } }, "ok")
  | ["gen.cur", op, cons] => ({ st with core := { s with curKeys := s.curKeys ++ [(op, cons)] } }, "ok")
  | ["gen.prev", op, cons] => ({ st with core := { s with prevKeys := s.prevKeys ++ [(op, cons)] } }, "ok")
  | ["gen.val", cons, pw] => ({ st with core := { s with vals := s.vals ++ [(cons, parseInt! pw)] } }, "ok")
  | ["gen.rev", cons, op] => ({ st with core := { s with reverse := s.reverse ++ [(cons, op)] } }, "ok")
  | ["gen.roundtrip"] =>
    (st, match roundtripAt codePrefixes codeDueCfg 0 st.h s with
         | none => "import-failed"
         | some s' => showCore s')
  | ["gen.ap", gw, topic] => ({ st with assets := { a with params := ⟨gw, topic⟩ } }, "ok")
  | ["gen.ac", k, lz, nm, al, rest] =>
    ({ st with assets := { a with chains := a.chains ++ [(k, ⟨parseNat! lz, nameOf nm, parseNat! al, rest⟩)] } }, "ok")
  | ["gen.at", k, lz, addr, dec, tot, rest] =>
    ({ st with assets := { a with tokens := a.tokens ++ [(k, ⟨parseNat! lz, addr, parseNat! dec, rest, parseInt! tot⟩)] } }, "ok")
  | ["gen.ad", k, sk, asset, t, wd, p] =>
    ({ st with assets := { a with deposits := a.deposits ++ [(k, ⟨sk, asset, parseInt! t, parseInt! wd, parseInt! p⟩)] } }, "ok")
  | ["gen.ao", k, op, asset, t, p, ts, os] =>
    ({ st with assets := { a with opAssets := a.opAssets ++ [(k, ⟨op, asset, parseInt! t, parseInt! p, parseInt! ts, parseInt! os⟩)] } }, "ok")
  | ["gen.assets"] => (st, assetsRoundtrip a)
  | ["gen.oo", addr, earn] => ({ st with operator := { o with operators := o.operators ++ [(addr, if earn == "-" then "" else earn)] } }, "ok")
  | ["gen.ok", op, chain, cons] => ({ st with operator := { o with keys := o.keys ++ [(op, chain, cons)] } }, "ok")
  | ["gen.os", op, avs, i, u] =>
    ({ st with operator := { o with optStates := o.optStates ++ [(joinKey op avs, ⟨op, avs, parseNat! i, parseNat! u⟩)] } }, "ok")
  | ["gen.ou", avs, op, sf, t, ac] =>
    ({ st with operator := { o with usd := o.usd ++ [(joinKey avs op, ⟨avs, op, parseInt! sf, parseInt! t, parseInt! ac⟩)] } }, "ok")
  | ["gen.oa", avs, am] => ({ st with operator := { o with avsUsd := o.avsUsd ++ [(avs, parseInt! am)] } }, "ok")
  | ["gen.operator"] => (st, operatorRoundtrip o)
  | "gen.ep" :: ids => ({ st with mods := { st.mods with epochs := ids } }, "ok")
  | ["gen.mp", denom, reward, ep] => ({ st with mods := { st.mods with mint := ⟨denom, parseInt! reward, ep⟩ } }, "ok")
  | ["gen.dp", ep, tax] => ({ st with mods := { st.mods with distr := ⟨ep, parseInt! tax⟩ } }, "ok")
  | ["gen.params"] => (st, paramsRoundtrip st.mods)
  | _ => (st, "bad-op")

def main : IO Unit := runDriver (⟨empty, emptyAssets, emptyOperator, emptyMods, [], [], 0, 0⟩ : St) step

end ExoVerif.Driver.Genesis
