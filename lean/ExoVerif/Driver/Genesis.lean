import ExoVerif.Driver.Common
import ExoVerif.Model.Genesis
/- driver for the C18 correspondence: the harness describes the cross-module core of the real state before the
   export (`gen.und`, `gen.q`, `gen.cur`, `gen.prev`, `gen.rev`, `gen.val`), `gen.roundtrip` prints what the model says the
   re-imported chain holds (undelegations with hold counts, dogfood queues, reverse key lookups, validator set). -/
namespace ExoVerif.Driver.Genesis
open ExoVerif.Genesis ExoVerif.Driver

def empty : Core := { unds := [], queues := [], curKeys := [], prevKeys := [], reverse := [], vals := [], epochs := [] }

def insertSorted (x : String) : List String → List String
  | [] => [x]
  | y :: ys => if x < y then x :: y :: ys else y :: insertSorted x ys

def sortStrings (xs : List String) : List String := xs.foldl (fun acc x => insertSorted x acc) []

def showCore (s : Core) : String :=
  let us := sortStrings (s.unds.map (fun u => s!"{u.id} {u.complete} {u.amount} {u.hold}"))
  let qs := s.queues.map (fun q => s!"{q.pfx} {q.epoch} {q.item}")
  let rs := sortStrings (s.reverse.map (fun r => s!"{r.1} {r.2}"))
  let vs := sortStrings (s.vals.map (fun v => s!"{v.1} {v.2}"))
  "und=[" ++ joinWith "," us ++ "] q=[" ++ joinWith "," qs ++ "] rev=[" ++ joinWith "," rs ++ "] val=[" ++ joinWith "," vs ++ "]"

def step (s : Core) (w : List String) : Core × String :=
  match w with
  | ["gen.reset"] => (empty, "ok")
  | ["gen.und", id, c, a, h] => ({ s with unds := s.unds ++ [⟨id, parseInt! c, parseInt! a, parseInt! h⟩] }, "ok")
  | ["gen.q", p, e, it] => ({ s with queues := s.queues ++ [⟨parseNat! p, parseInt! e, it, []⟩] }, "ok")
  | ["gen.q", p, e, it, recs] => ({ s with queues := s.queues ++ [⟨parseNat! p, parseInt! e, it, recs.splitOn "+"⟩] }, "ok")
  | ["gen.cur", op, cons] => ({ s with curKeys := s.curKeys ++ [(op, cons)] }, "ok")
  | ["gen.prev", op, cons] => ({ s with prevKeys := s.prevKeys ++ [(op, cons)] }, "ok")
  | ["gen.val", cons, pw] => ({ s with vals := s.vals ++ [(cons, parseInt! pw)] }, "ok")
  | ["gen.rev", cons, op] => ({ s with reverse := s.reverse ++ [(cons, op)] }, "ok")
  | ["gen.roundtrip"] => (s, showCore (roundtrip codePrefixes 0 0 s))
  | _ => (s, "bad-op")

def main : IO Unit := runDriver empty step

end ExoVerif.Driver.Genesis
