import ExoVerif.Driver.Common
import ExoVerif.Model.Ledger
/- driver for the ledger correspondence (C01–C04): ops `ledger.*`, observation = `ok|rej` + a
   canonical dump of every store the properties talk about (sorted by the real store key). -/
namespace ExoVerif.Driver.Ledger
open ExoVerif ExoVerif.Ledger ExoVerif.Driver ExoVerif.KV

def hexDigit (n : Nat) : Char := if n < 10 then Char.ofNat (48 + n) else Char.ofNat (87 + n)

-- `hexNat` (hexutil.EncodeUint64) is the model's: the NST adjustment orders store keys by it

def recKeyStr (k : RecKey) : String := s!"{k.op}/{hexNat k.height}/{hexNat k.nonce}/{k.hash}"

def sortStrs (xs : List String) : List String := xs.mergeSort (fun a b => decide (a ≤ b))

def section_ (tag : String) (xs : List String) : String := tag ++ "{" ++ joinWith ";" (sortStrs xs) ++ "}"

def dump (s : L) : String :=
  joinWith " " [
    s!"H={s.height}",
    section_ "T" (s.totals.map fun e => s!"{e.1}={e.2}"),
    section_ "S" (s.stakers.map fun e => s!"{e.1.1}/{e.1.2}={e.2.total},{e.2.withdrawable},{e.2.pending}"),
    section_ "P" (s.pools.map fun e => s!"{e.1.1}/{e.1.2}={e.2.amount},{e.2.pending},{e.2.totalShare.raw},{e.2.opShare.raw}"),
    section_ "D" (s.deleg.map fun e => s!"{e.1.1}/{e.1.2.1}/{e.1.2.2}={e.2.share.raw},{e.2.wait}"),
    section_ "L" (s.slist.map fun e => s!"{e.1.1}/{e.1.2}={joinWith "," e.2}"),
    section_ "A" (s.assoc.map fun e => s!"{e.1}={e.2}"),
    section_ "R" (s.recs.map fun e => s!"{recKeyStr e.1}={e.2.staker},{e.2.asset},{e.2.amount},{e.2.actual},{e.2.completeBlock}"),
    section_ "SI" (s.sidx.map fun e => s!"{e.1.1}/{e.1.2.1}/{hexNat e.1.2.2}={recKeyStr e.2}"),
    section_ "PI" (s.pidx.map fun e => s!"{hexNat e.1.1}/{hexNat e.1.2}={recKeyStr e.2}"),
    section_ "HC" ((s.holds.filter (fun e => e.2 != 0)).map fun e => s!"{recKeyStr e.1}={e.2}"),
    section_ "B" (s.bal.map fun e => s!"{e.1}={e.2}"),
    s!"E={s.escrow}"
  ]

def empty : L :=
  { height := 0, unbonding := 10, totals := [], operators := [], clientChains := [], stakers := [], pools := [], deleg := [],
    slist := [], assoc := [], recs := [], sidx := [], pidx := [], holds := [], bal := [], escrow := 0,
    gDep := [], gWd := [], gSlashed := [] }

def result (s : L) (r : Except String L) : L × String :=
  match r with
  | .ok s' => (s', "ok " ++ dump s')
  | .error _ => (s, "rej " ++ dump s)

def step (s : L) (w : List String) : L × String :=
  match w with
  | ["ledger.reset", h, ub] => ({ empty with height := parseNat! h, unbonding := parseNat! ub }, "ok")
  | ["ledger.asset", a, t] => ({ s with totals := set s.totals a (parseInt! t) }, "ok")
  | ["ledger.operator", o] => ({ s with operators := s.operators ++ [o] }, "ok")
  | ["ledger.chain", c] => ({ s with clientChains := s.clientChains ++ [c] }, "ok")
  | ["ledger.staker", st, a, t, wd, p] =>
    ({ s with stakers := set s.stakers (st, a) ⟨parseInt! t, parseInt! wd, parseInt! p⟩ }, "ok")
  | ["ledger.pool", o, a, am, pe, ts, os] =>
    ({ s with pools := set s.pools (o, a) ⟨parseInt! am, parseInt! pe, ⟨parseInt! ts⟩, ⟨parseInt! os⟩⟩ }, "ok")
  | ["ledger.deleg", st, a, o, sh, wt] =>
    ({ s with deleg := set s.deleg (st, a, o) ⟨⟨parseInt! sh⟩, parseInt! wt⟩ }, "ok")
  | ["ledger.slist", o, a, l] => ({ s with slist := set s.slist (o, a) ((l.splitOn ",").filter (· ≠ "")) }, "ok")
  | ["ledger.assoc", st, o] => ({ s with assoc := set s.assoc st o }, "ok")
  | ["ledger.bal", st, b] => ({ s with bal := set s.bal st (parseInt! b) }, "ok")
  | ["ledger.escrow", e] => ({ s with escrow := parseInt! e }, "ok")
  | ["ledger.dump"] => (s, "ok " ++ dump s)
  | ["ledger.deposit", st, a, x] => result s (deposit s st a (parseInt! x))
  | ["ledger.withdraw", st, a, x] => result s (withdraw s st a (parseInt! x))
  | ["ledger.delegate", st, a, o, x] => result s (delegate s st a o (parseInt! x))
  | ["ledger.undelegate", st, a, o, x, n, hash, held] =>
    -- `held` = the AVS hook (dogfood AfterUndelegationStarted) placed a hold: environment input
    match undelegate s st a o (parseInt! x) (parseNat! n) hash with
    | .ok s' =>
      let s'' := if held == "1" then hold s' ⟨o, s.height, parseNat! n, hash⟩ else s'
      (s'', "ok " ++ dump s'')
    | .error _ => (s, "rej " ++ dump s)
  | ["ledger.hold", o, h, n, hash] => let s' := hold s ⟨o, parseNat! h, parseNat! n, hash⟩; (s', "ok " ++ dump s')
  | ["ledger.release", o, h, n, hash] => result s (release s ⟨o, parseNat! h, parseNat! n, hash⟩)
  | "ledger.endblock" :: rels =>
    -- `rels` = record keys whose hold the dogfood EndBlock (which runs first) releases in this block
    let s1 := rels.foldl (fun s k =>
      match k.splitOn "," with
      | [o, h, n, hash] => (match release s ⟨o, parseNat! h, parseNat! n, hash⟩ with | .ok s' => s' | .error _ => s)
      | _ => s) s
    let s' := nextBlock (endBlock s1); (s', "ok " ++ dump s')
  | ["ledger.slash", o, inf, p] => let s' := slashAssets s o (parseNat! inf) ⟨parseInt! p⟩; (s', "ok " ++ dump s')
  | ["ledger.nstadjust", st, a, x] => result s (nstUpdate s st a (parseInt! x))
  | ["ledger.associate", st, o] => result s (associate s st o)
  | ["ledger.dissociate", st] => result s (dissociate s st)
  | _ => (s, "bad-op")

def main : IO Unit := runDriver empty step

end ExoVerif.Driver.Ledger
