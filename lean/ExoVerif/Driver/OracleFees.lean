import ExoVerif.Driver.Common
import ExoVerif.Model.OracleFees
/- driver for the fee-path correspondence (ops `fee.*`, see harness/dom_oracle_fees.go) -/
namespace ExoVerif.Driver.OracleFees
open ExoVerif.OracleFees ExoVerif.Driver

def b (w : String) : Bool := w == "1"

def step (s : Unit) (w : List String) : Unit × String :=
  match w with
  | ["fee.reset"] => (s, "ok")
  | ["fee.block", _] => (s, "ok")
  | ["fee.tx", _kind, np, no, gas, fee, bf, bfc, ge, ed, nk, mk, fk] =>
    let t : FeeTx := { nPrice := parseNat! np, nOther := parseNat! no, gas := parseNat! gas, fee := parseNat! fee,
                       gasEnough := b ge, edSigner := b ed, nonceOK := b nk, msgsOK := b mk, fundsOK := b fk }
    let d := deliverTx (parseNat! bf) t
    -- `-`: first block, no committed state for CheckTx to run on
    (s, s!"chk={if bfc = "-" then "-" else checkTx (parseNat! bfc) t} dlv={d.1} paid={d.2}")
  | _ => (s, "bad-op")

def main : IO Unit := runDriver () step

end ExoVerif.Driver.OracleFees
