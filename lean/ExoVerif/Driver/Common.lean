/-
  Line-protocol plumbing shared by all model drivers: read op lines from stdin, feed them to a
  pure `step : σ → List String → σ × String`, print one observation line per op line.
  Core-only (no Mathlib) so that `exodriver` links as a native executable.
-/
namespace ExoVerif.Driver

def splitWords (s : String) : List String :=
  (s.splitOn " ").filter (· ≠ "")

def parseInt? (s : String) : Option Int := s.toInt?
def parseNat? (s : String) : Option Nat := s.toNat?

def parseInt! (s : String) : Int := (s.toInt?).getD 0
def parseNat! (s : String) : Nat := (s.toNat?).getD 0

def joinWith (sep : String) (xs : List String) : String := sep.intercalate xs

def stripEOL (s : String) : String :=
  let s := if s.endsWith "\n" then (s.dropRight 1) else s
  if s.endsWith "\r" then s.dropRight 1 else s

partial def loop {σ : Type} (h : IO.FS.Stream) (out : IO.FS.Stream) (step : σ → List String → σ × String) (s : σ) : IO Unit := do
  let line ← h.getLine
  if line.isEmpty then
    out.flush
    return ()
  let (s', o) := step s (splitWords (stripEOL line))
  out.putStrLn o
  loop h out step s'

def runDriver {σ : Type} (init : σ) (step : σ → List String → σ × String) : IO Unit := do
  let stdin ← IO.getStdin
  let stdout ← IO.getStdout
  loop stdin stdout step init

end ExoVerif.Driver
