import ExoVerif.Driver.Common
import ExoVerif.Model.Epochs
import ExoVerif.Model.EpochsGenesis
/- driver for the C15 correspondence.
   `epoch.reset [genesisTime initHeight]`  empty store; the context InitGenesis runs in
   `epoch.reg id start dur cur curStart started height`   one entry of the genesis list, in genesis order:
        AddEpochInfo of the model (`register`); the observation is `ok` whatever it returned (InitGenesis
        drops the error: the implementation has nothing to show for one entry)
   `epoch.init`   the store after InitGenesis, every field of every stored identifier, in store order
   `epoch.add …`  an identifier put into the store as it is (state taken over from a running chain)
   `epoch.block bt h`   BeginBlocker
   An empty identifier is written `<empty>`. -/
namespace ExoVerif.Driver.Epochs
open ExoVerif.Epochs ExoVerif.Driver

structure St where
  es : List EpochInfo := []
  gt : Int := 0
  gh : Int := 0

def showId (s : String) : String := if s == "" then "<empty>" else s
def readId (s : String) : String := if s == "<empty>" then "" else s

def showInfo (e : EpochInfo) : String :=
  s!"{showId e.identifier}={e.currentEpoch},{e.currentEpochStartTime},{if e.epochCountingStarted then 1 else 0},{e.currentEpochStartHeight}"

def showFull (e : EpochInfo) : String :=
  s!"{showId e.identifier}={e.startTime},{e.duration},{e.currentEpoch},{e.currentEpochStartTime},{if e.epochCountingStarted then 1 else 0},{e.currentEpochStartHeight}"

def showEv : Ev → String
  | .epochEnd id n => s!"E:{showId id}:{n}"
  | .epochStart id n => s!"S:{showId id}:{n}"

def parseInfo (id st dur cur curSt started hgt : String) : Option EpochInfo :=
  match parseInt? st, parseInt? dur, parseInt? cur, parseInt? curSt, parseInt? hgt with
  | some st, some dur, some cur, some curSt, some hgt =>
    some { identifier := readId id, startTime := st, duration := dur, currentEpoch := cur,
           currentEpochStartTime := curSt, epochCountingStarted := started == "1",
           currentEpochStartHeight := hgt }
  | _, _, _, _, _ => none

def step (s : St) (w : List String) : St × String :=
  match w with
  | ["epoch.reset"] => ({}, "ok")
  | ["epoch.reset", gt, gh] =>
    match parseInt? gt, parseInt? gh with
    | some gt, some gh => ({ es := [], gt := gt, gh := gh }, "ok")
    | _, _ => (s, "bad-op")
  | ["epoch.reg", id, st, dur, cur, curSt, started, hgt] =>
    match parseInfo id st dur cur curSt started hgt with
    | some e => ({ s with es := (register s.es e s.gt s.gh).1 }, "ok")
    | none => (s, "bad-op")
  | ["epoch.init"] => (s, joinWith ";" (s.es.map showFull))
  | ["epoch.add", id, st, dur, cur, curSt, started, hgt] =>
    match parseInfo id st dur cur curSt started hgt with
    | some e => ({ s with es := s.es ++ [e] }, "ok")
    | none => (s, "bad-op")
  | ["epoch.block", bt, h] =>
    match parseInt? bt, parseInt? h with
    | some bt, some h =>
      let (es', evs) := beginBlocker s.es bt h
      ({ s with es := es' }, joinWith ";" (es'.map showInfo) ++ "|" ++ joinWith "," (evs.map showEv))
    | _, _ => (s, "bad-op")
  | _ => (s, "bad-op")

def main : IO Unit := runDriver ({} : St) step

end ExoVerif.Driver.Epochs
