import ExoVerif.Driver.Common
import ExoVerif.Model.Epochs
/- driver for the C15 correspondence: ops `epoch.reset`, `epoch.add …`, `epoch.block bt h` -/
namespace ExoVerif.Driver.Epochs
open ExoVerif.Epochs ExoVerif.Driver

def showInfo (e : EpochInfo) : String :=
  s!"{e.identifier}={e.currentEpoch},{e.currentEpochStartTime},{if e.epochCountingStarted then 1 else 0},{e.currentEpochStartHeight}"

def showEv : Ev → String
  | .epochEnd id n => s!"E:{id}:{n}"
  | .epochStart id n => s!"S:{id}:{n}"

def step (es : List EpochInfo) (w : List String) : List EpochInfo × String :=
  match w with
  | ["epoch.reset"] => ([], "ok")
  | ["epoch.add", id, st, dur, cur, curSt, started, hgt] =>
    match parseInt? st, parseInt? dur, parseInt? cur, parseInt? curSt, parseInt? hgt with
    | some st, some dur, some cur, some curSt, some hgt =>
      (es ++ [{ identifier := id, startTime := st, duration := dur, currentEpoch := cur,
                currentEpochStartTime := curSt, epochCountingStarted := started == "1",
                currentEpochStartHeight := hgt }], "ok")
    | _, _, _, _, _ => (es, "bad-op")
  | ["epoch.block", bt, h] =>
    match parseInt? bt, parseInt? h with
    | some bt, some h =>
      let (es', evs) := beginBlocker es bt h
      (es', joinWith ";" (es'.map showInfo) ++ "|" ++ joinWith "," (evs.map showEv))
    | _, _ => (es, "bad-op")
  | _ => (es, "bad-op")

def main : IO Unit := runDriver ([] : List EpochInfo) step

end ExoVerif.Driver.Epochs
