import ExoVerif.Driver.Common
import ExoVerif.Model.Oracle
import ExoVerif.Model.OracleNil
import ExoVerif.Model.OracleParams
import ExoVerif.Model.OracleParamsUpdate
import ExoVerif.Model.OracleCheckSide
/- driver for the C12/C13/C14 correspondence (ops `orc.*`, see harness/dom_oracle.go) -/
namespace ExoVerif.Driver.Oracle
open ExoVerif.Oracle ExoVerif.Driver

/-! ### canonical dump (must match x/oracle/keeper/aggregator/verif_dump.go) -/

def pad2 (n : Nat) : String := if n < 10 then s!"0{n}" else s!"{n}"
def vname (i : Nat) : String := "v" ++ pad2 i

def optI : Option Int → String
  | some x => toString x
  | none => "nil"

def tsS (t : Int) : String := if t < 0 then "-" else toString t

def sortBy {α} (le : α → α → Bool) (l : List α) : List α := l.mergeSort le

def sortNatKey {α} (l : List (Nat × α)) : List (Nat × α) := sortBy (fun a b => decide (a.1 ≤ b.1)) l
def sortStrs (l : List String) : List String := sortBy (fun a b => decide (a ≤ b)) l

def showParams (p : Params) : String :=
  let hd := s!"P:{p.maxNonce},{p.thA},{p.thB},{p.maxDetID},1,{p.maxSizePrices}"
  let fs := (p.feeders.zipIdx.filter (fun x => x.2 ≠ 0)).map
    (fun x => s!";{x.2}:{x.1.tokenID},{x.1.ruleID},{x.1.startRoundID},{x.1.startBaseBlock},{x.1.interval},{x.1.endBlock}")
  hd ++ String.join fs

def showFilter (f : Filter) : String :=
  let ns := sortStrs (f.vNonce.map (fun kv => vname kv.1 ++ "=" ++ joinWith " " (kv.2.map toString)))
  let ss := sortStrs (f.vSource.map (fun kv => vname kv.1.1 ++ toString kv.1.2 ++ "=" ++ joinWith " " kv.2))
  "{F:" ++ s!"{f.maxNonce},{f.maxDetID} N:" ++ joinWith "," ns ++ " S:" ++ joinWith "," ss ++ "}"

def showRound (r : RoundPrices) : String :=
  s!"{r.detID}/{optI r.price}/{tsS r.ts}/" ++ joinWith "," (r.prices.map (fun pp => s!"{pp.price}@{pp.power}"))

def showCalc (c : Calculator) : String :=
  "{C:" ++ s!"{c.vlen},{c.total}" ++
    String.join ((sortNatKey c.ds).map (fun kv =>
      s!" {kv.1}/{kv.2.cap}/{kv.2.count}:[" ++ joinWith ";" (kv.2.rounds.map showRound) ++ "]")) ++ "}"

def showReport (r : Report) : String :=
  s!" {vname r.validator}/{r.power}/{optI r.price}/" ++
    joinWith "," ((sortNatKey r.prices).map (fun kv =>
      s!"{kv.1}:{optI kv.2.price}:{kv.2.decimal}:{tsS kv.2.ts}:{if kv.2.detRound = "" then "-" else kv.2.detRound}"))

def showAgg (a : Aggregator) : String :=
  "{A:" ++ s!"{optI a.final},{a.reportPower},{a.total} ds:" ++
    joinWith "," ((sortNatKey a.ds).map (fun kv => s!"{kv.1}={kv.2}")) ++
    String.join (a.reports.map showReport) ++ "}"

def showWorker (w : Worker) : String :=
  "{" ++ s!"{if w.sealed then "true" else "false"},{match w.price with | some p => toString p | none => ""},{w.decimal}" ++ "}" ++
  (match w.f with | some f => showFilter f | none => "{F:nil}") ++
  (match w.c with | some c => showCalc c | none => "{C:nil}") ++
  (match w.a with | some a => showAgg a | none => "{A:nil}")

def showAgc (g? : Option Agc) (globals : Params) : String :=
  match g? with
  | none => "AGC:nil"
  | some g =>
    (match g.params with | some p => showParams p | none => "P:nil") ++
    s!"|G:{globals.maxNonce},{globals.thA},{globals.thB},{globals.maxDetID}" ++
    "|V:" ++ joinWith "," (sortStrs (g.vals.map (fun kv => s!"{vname kv.1}={kv.2}"))) ++ s!"|T:{g.total}" ++
    "|R:" ++ joinWith ";" ((sortNatKey g.rounds).map (fun kv =>
        s!"{kv.1}:{kv.2.basedBlock},{kv.2.nextRoundID},{if kv.2.status = .open then 1 else 2}")) ++
    "|W:" ++ joinWith ";" ((sortNatKey g.workers).map (fun kv => s!"{kv.1}:" ++ showWorker kv.2))

def showPrices (st : Store) : String :=
  joinWith ";" ((sortNatKey st.prices).map (fun kv =>
    s!"{kv.1}:{kv.2.next}:[" ++ joinWith "," ((sortNatKey kv.2.rounds).map (fun r =>
      s!"{r.1}={match r.2.price with | some p => toString p | none => ""}/{r.2.decimal}/{tsS r.2.ts}/{r.2.roundID}")) ++ "]"))

def showNonces (st : Store) : String :=
  let l := sortBy (fun (a b : (Nat × Nat) × Nat) => decide (a.1.1 < b.1.1 ∨ (a.1.1 = b.1.1 ∧ a.1.2 ≤ b.1.2))) st.nonces
  joinWith "," (l.map (fun kv => s!"{vname kv.1.1}/{kv.1.2}={kv.2}"))

def showLog (st : Store) : String :=
  let ms := (sortNatKey st.recentMsgs).map (fun kv => s!"{kv.1}#{kv.2.length}")
  let ps := (sortNatKey st.recentParams).map (fun kv => s!"{kv.1}#{kv.2.feeders.length}")
  "M:" ++ joinWith "," ms ++ s!" MI:{joinWith "," (st.msgIndex.map toString)} PR:" ++ joinWith "," ps ++
    s!" PI:{joinWith "," (st.paramsIndex.map toString)} VU:{match st.vuBlock with | some b => toString b | none => "-"}"

def showCache (c? : Option Cache) : String :=
  match c? with
  | none => "CS:nil"
  | some c =>
    "CS:M[" ++ joinWith ";" (c.msgs.map (fun m =>
      s!"{m.feederID}/{vname m.validator}/" ++ joinWith "+" (m.srcs.map (fun s =>
        s!"{s.sourceID}[" ++ joinWith " " (s.prices.map (fun p => s!"{p.detID}={p.price}")) ++ "]")))) ++
    "]|V[" ++ joinWith "," (sortStrs (c.vals.map (fun kv => s!"{vname kv.1}={kv.2}"))) ++ s!"]{if c.vUpdate then "true" else "false"}" ++
    s!"|P{if c.pUpdate then "true" else "false"},{match c.params with | some p => p.feeders.length | none => 0}"

def showErr : MsgErr → String
  | .invalidMsg _ => "oracle:2"
  | .ignored => "oracle:3"
  | .formatInvalid => "oracle:4"
  | .panic _ => "panic"

def showOut : TxOut → String
  | .ok => "ok"
  | .ante why => "ante:" ++ why
  | .msg _ (.panic _) => "panic"
  | .msg i e => s!"msg{i}:" ++ showErr e

def fullObs (s : State) : String :=
  showPrices s.store ++ "|N:" ++ showNonces s.store ++ "|" ++ showAgc s.agc s.store.params ++ "|" ++ showCache s.cache ++ "|" ++ showLog s.store

/-! ### parsing -/

abbrev P (α : Type) := List String → Option (α × List String)

def pNat : P Nat | w :: ws => (w.toNat?).map (·, ws) | [] => none
def pInt : P Int | w :: ws => (w.toInt?).map (·, ws) | [] => none
def pStr : P String | w :: ws => some (w, ws) | [] => none

def pMany {α} (p : P α) : Nat → P (List α)
  | 0, ws => some ([], ws)
  | n + 1, ws =>
    match p ws with
    | none => none
    | some (a, ws1) =>
      match pMany p n ws1 with
      | none => none
      | some (as, ws2) => some (a :: as, ws2)

def pSigInfo : P SigInfo := fun ws =>
  match ws with
  | pk :: sg :: rest => some ({ pubkeyMatches := pk == "1", sigValid := sg == "1" }, rest)
  | _ => none

def pPriceTD : P PriceTD := fun ws =>
  match ws with
  | pr :: dec :: tk :: ts :: det :: rest =>
    match pr.toInt?, dec.toInt?, tk.toNat?, ts.toInt? with
    | some pr, some dec, some tk, some ts =>
      some ({ price := pr, decimal := dec, tsKind := tk, ts := ts, detID := (if det = "-" then "" else det) }, rest)
    | _, _, _, _ => none
  | _ => none

def pSource : P PSource := fun ws =>
  match pNat ws with
  | some (sid, ws1) =>
    match pNat ws1 with
    | some (n, ws2) =>
      match pMany pPriceTD n ws2 with
      | some (ps, ws3) => some ({ sourceID := sid, prices := ps }, ws3)
      | none => none
    | none => none
  | none => none

def pMsg : P Msg := fun ws =>
  match ws with
  | c :: f :: b :: nn :: ns :: rest =>
    match c.toNat?, f.toNat?, b.toNat?, nn.toInt?, ns.toNat? with
    | some c, some f, some b, some nn, some ns =>
      match pMany pSource ns rest with
      | some (srcs, rest') => some ({ creator := c, feederID := f, basedBlock := b, nonce := nn, prices := srcs }, rest')
      | none => none
    | _, _, _, _, _ => none
  | _ => none

def parseUpdates (w : String) : List (Nat × Int) :=
  if w = "-" then [] else
  (w.splitOn ",").filterMap (fun kv =>
    match kv.splitOn ":" with
    | [a, b] => match a.toNat?, b.toInt? with
      | some a, some b => some (a, b)
      | _, _ => none
    | _ => none)

def parseNatList (w : String) : List Nat :=
  if w = "-" then [] else (w.splitOn ",").filterMap (·.toNat?)

/-! ### MsgUpdateParams payload (`orc.updparams`, harness/dom_oracle_paramsupd.go) -/

def pSourceIn : P Source := fun ws =>
  match ws with
  | v :: d :: rest => some ({ valid := v == "1", det := d == "1" }, rest)
  | _ => none

def pTokenIn : P TokenIn := fun ws =>
  match ws with
  | e :: d :: rest => some ({ existing := parseNat! e, decimal := parseInt! d }, rest)
  | _ => none

def pRuleIn : P (List Nat) := fun ws =>
  match ws with
  | r :: rest => some (parseNatList r, rest)
  | _ => none

def pFeederIn : P Feeder := fun ws =>
  match ws with
  | t :: r :: sr :: sb :: iv :: e :: rest =>
    some (Feeder.mk (parseNat! t) (parseNat! r) (parseNat! sr) (parseNat! sb) (parseNat! iv) (parseNat! e), rest)
  | _ => none

def pCounted {α} (p : P α) : P (List α) := fun ws =>
  match ws with
  | n :: rest => pMany p (parseNat! n) rest
  | [] => none

/-- `<maxSize> <nS> (valid det)* <nT> (existing decimal)* <nR> (ids|-)* <nF> (token rule startRound startBase interval end)*` -/
def pParamsIn : P ParamsIn := fun ws =>
  match ws with
  | ms :: rest =>
    match pCounted pSourceIn rest with
    | some (ss, r1) =>
      match pCounted pTokenIn r1 with
      | some (ts, r2) =>
        match pCounted pRuleIn r2 with
        | some (rs, r3) =>
          match pCounted pFeederIn r3 with
          | some (fs, r4) => some ({ sources := ss, tokens := ts, rules := rs, maxSizePrices := parseInt! ms, feeders := fs }, r4)
          | none => none
        | none => none
      | none => none
    | none => none
  | [] => none

def emptyParams : Params :=
  { maxNonce := 3, thA := 2, thB := 3, maxDetID := 5, maxSizePrices := 100, sources := [], rules := [], tokenDecimals := [], feeders := [] }

def emptyState : State :=
  { store := { prices := [], nonces := [], recentMsgs := [], msgIndex := [], recentParams := [], paramsIndex := [], vuBlock := none, params := emptyParams },
    agc := none, cache := none, dogfood := [], height := 0, blockTime := 0 }

def detCount (p : Params) : Nat := (p.sources.filter (·.det)).length

/-- at most one deterministic source in the stored parameters, in the parameters the aggregator context works
with and in a pending cached update -/
def atMostOneDet (s : State) : Bool :=
  detCount s.store.params ≤ 1 &&
  (match s.agc with | some g => (match g.params with | some p => detCount p ≤ 1 | none => true) | none => true) &&
  (match s.cache with | some c => (match c.params with | some p => detCount p ≤ 1 | none => true) | none => true) &&
  s.store.recentParams.all (fun kv => detCount kv.2 ≤ 1)

def updParams (s : State) (f : Params → Params) : State := { s with store := { s.store with params := f s.store.params } }

def step (s : State) (w : List String) : State × String :=
  match w with
  | ["orc.reset"] => (emptyState, "ok")
  | ["orc.params", mn, a, b, md, ms] =>
    (updParams s (fun p => { p with maxNonce := parseNat! mn, thA := parseInt! a, thB := parseInt! b, maxDetID := parseNat! md, maxSizePrices := parseNat! ms }), "ok")
  | ["orc.source", v, d] => (updParams s (fun p => { p with sources := p.sources ++ [{ valid := v == "1", det := d == "1" }] }), "ok")
  | ["orc.rule", ids] => (updParams s (fun p => { p with rules := p.rules ++ [parseNatList ids] }), "ok")
  | ["orc.token", d] => (updParams s (fun p => { p with tokenDecimals := p.tokenDecimals ++ [parseInt! d] }), "ok")
  | ["orc.feeder", t, r, w3, w4, w5, w6] =>
    let fd : Feeder := Feeder.mk (parseNat! t) (parseNat! r) (parseNat! w3) (parseNat! w4) (parseNat! w5) (parseNat! w6)
    (updParams s (fun p => { p with feeders := p.feeders ++ [fd] }), "ok")
  | ["orc.val", i, pw] => ({ s with dogfood := aset (parseNat! i) (parseInt! pw) s.dogfood }, "ok")
  | ["orc.price", t, nx] =>
    let tok := parseNat! t
    ({ s with store := s.store.setToken tok { (s.store.token tok) with next := parseNat! nx } }, "ok")
  | ["orc.priceitem", t, rid, pr, dec, ts] =>
    let tok := parseNat! t
    let ts0 := s.store.token tok
    let it : PriceTR := { price := (if pr = "-" then none else some (parseInt! pr)), decimal := parseInt! dec, ts := parseInt! ts, roundID := parseNat! rid }
    ({ s with store := s.store.setToken tok { ts0 with rounds := aset (parseNat! rid) it ts0.rounds } }, "ok")
  | ["orc.begin", h, bt] => ({ s with height := parseNat! h, blockTime := parseInt! bt }, "ok")
  | ["orc.init"] =>
    match getAgc s with
    | some s' => (s', fullObs s')
    | none => (s, "panic")
  | ["orc.restart"] =>
    let s0 := { s with agc := none, cache := none }
    match getAgc s0 with
    | some s' => (s', fullObs s')
    | none => (s0, "panic")
  | "orc.tx" :: sz :: ni :: rest0 =>
    -- orc.tx size nInfos (pk sg)* nMsgs msg*
    match pMany pSigInfo (parseNat! ni) rest0 with
    | some (infos, nm :: rest) =>
      match pMany pMsg (parseNat! nm) rest with
      | some (msgs, _) =>
        let tx : Tx := { size := parseNat! sz, infos := infos, msgs := msgs }
        -- the nil-aware DeliverTx (Model/OracleNil.lean); equal to `deliverTx` wherever no aggregation meets a nil slot
        let (s', out) := deliverTxN s tx
        -- run-time check of that equality on the input space of the C12–C14 theorems: while at most one
        -- deterministic source is configured (stored and in-memory parameters) the layer must BE `deliverTx`
        if atMostOneDet s && decide ((s', out) ≠ deliverTx s tx) then (s', "layer-mismatch|" ++ showOut out ++ "|" ++ fullObs s')
        else (s', showOut out ++ "|" ++ fullObs s')
      | none => (s, "bad-op")
    | _ => (s, "bad-op")
  | "orc.sim" :: _cls :: sz :: ni :: rest0 =>
    -- orc.sim class size nInfos (pk sg)* nMsgs msg*: a tx that was only SIMULATED (BaseApp.Simulate; the class the
    -- real call returned is informative). Model/OracleCheckSide.lean: the handlers run on the check-side copy of the
    -- aggregator context, the deliver side is what it was (Props/C13CheckSide.lean). The check-side context is
    -- not carried by this driver's state (its results are not compared), so every simulation starts from a copy.
    match pMany pSigInfo (parseNat! ni) rest0 with
    | some (infos, nm :: rest) =>
      match pMany pMsg (parseNat! nm) rest with
      | some (msgs, _) =>
        let tx : Tx := { size := parseNat! sz, infos := infos, msgs := msgs }
        let n : ExoVerif.OracleCheckSide.Node := { deliver := s, check := none }
        let s' := (ExoVerif.OracleCheckSide.simulateTx n s.store s.blockTime tx).1.deliver
        (s', fullObs s')
      | none => (s, "bad-op")
    | _ => (s, "bad-op")
  | ["orc.updparams.rej", _why] =>
    -- a MsgUpdateParams that the real handler refused (the reason is informative only): Model/OracleParams.lean
    let (s', ok) := updateParams s refusedUpdate
    (s', (if ok then "ok" else "rej") ++ "|" ++ fullObs s')
  | "orc.updparams" :: _kind :: rest =>
    -- a MsgUpdateParams whose payload the model runs through its own transcription of the handler's chain
    match pParamsIn rest with
    | some (inp, _) =>
      let (s', ok) := updateParams s (applyUpdate inp)
      (s', (if ok then "ok" else "rej") ++ "|" ++ fullObs s')
    | none => (s, "bad-op")
  | ["orc.end", upd] =>
    match endBlock s (parseUpdates upd) with
    | some s' => (s', fullObs s')
    | none => (s, "panic")
  | _ => (s, "bad-op")

def main : IO Unit := runDriver emptyState step

end ExoVerif.Driver.Oracle
