import ExoVerif.Driver.Common
import ExoVerif.Generated.Prims
/- driver of the primitive conformance run (harness domain `decprims`, harness/dom_decprims.go).

   Every op evaluates ONE entry of the translator's whitelist (Generated/Prims.lean: the Lean text the
   translator inserts for that Go primitive, over Basic/Dec.lean) on the operands the harness gave to the
   REAL Go operation (cosmossdk.io/math LegacyDec / Int, math/big, sized ints, time.Time).

   ops:  prims.reset <name> …            the entries the harness exercises; obs `ok` iff they are exactly
                                         Gen.Prims.names (closed coverage of the whitelist)
         <name> <tag> <arg> …            arg = i:<int> | d:<raw 10^-18 units> | b:0|1
                                         tag = -    sdkmath.Int / LegacyDec / *big.Int receiver and operands
                                               i64 u64 i32 u32 u8   Go sized integers (wrap-around is `wrap`)
                                               time  time.Time (ns since the epoch) / time.Duration operands
   obs:  i <int> | d <raw> | b true|false | panic | wrap | no-entry

   `panic` / `wrap` are the side conditions under which the total Lean function is NOT what Go computes
   (the model carries them separately: overflow of the 256/315-bit bounds, zero divisors, out-of-range
   conversions). They are stated here, once, and checked against the implementation by the same run. -/
namespace ExoVerif.Driver.DecPrims
open ExoVerif ExoVerif.Driver ExoVerif.Gen.Prims

def parseArg (s : String) : Option V :=
  match s.splitOn ":" with
  | ["i", x] => x.toInt?.map V.int
  | ["d", x] => x.toInt?.map (fun r => V.dec ⟨r⟩)
  | ["b", "1"] => some (V.bool true)
  | ["b", "0"] => some (V.bool false)
  | _ => none

def parseArgs : List String → Option (List V)
  | [] => some []
  | a :: as => do
    let v ← parseArg a
    let vs ← parseArgs as
    pure (v :: vs)

def showV : V → String
  | .int i => s!"i {i}"
  | .dec d => s!"d {d.raw}"
  | .bool b => s!"b {b}"

/-- sdkmath.Int: BitLen ≤ 256 -/
def fitsInt (x : Int) : Bool := x.natAbs < 2 ^ 256
/-- LegacyDec: BitLen(raw) ≤ 315 -/
def fitsDec (x : Int) : Bool := x.natAbs < 2 ^ 315

def inRange (ty : String) (x : Int) : Bool :=
  match ty with
  | "i64" | "int64" | "int" => decide (-(2 : Int) ^ 63 ≤ x ∧ x < (2 : Int) ^ 63)
  | "u64" | "uint64" => decide (0 ≤ x ∧ x < (2 : Int) ^ 64)
  | "i32" | "int32" => decide (-(2 : Int) ^ 31 ≤ x ∧ x < (2 : Int) ^ 31)
  | "u32" | "uint32" => decide (0 ≤ x ∧ x < (2 : Int) ^ 32)
  | "u8" | "uint8" => decide (0 ≤ x ∧ x < (2 : Int) ^ 8)
  | _ => true

def isSized (tag : String) : Bool := tag != "-" && tag != "time"

def intOf : V → Int
  | .int i => i
  | .dec d => d.raw
  | .bool _ => 0

def secondIsZero (args : List V) : Bool :=
  match args with
  | [_, b] => intOf b == 0
  | _ => false

/-- when Go does not return the value of the Lean function: `some "panic"` / `some "wrap"` -/
def sideCondition (name tag : String) (args : List V) (res : V) : Option String :=
  let r := intOf res
  if ["Int.Add", "Int.Sub", "Int.Mul"].contains name && tag == "-" then
    if fitsInt r then none else some "panic"
  else if name == "Int.Quo" && tag == "-" then
    if secondIsZero args then some "panic" else none
  else if name == "Int.Int64" then (if inRange "i64" r then none else some "panic")
  else if name == "Int.Uint64" then (if inRange "u64" r then none else some "panic")
  else if ["Dec.Add", "Dec.Sub", "Dec.Mul", "Dec.MulTruncate", "Dec.MulInt", "Dec.MulInt64"].contains name then
    if fitsDec r then none else some "panic"
  else if ["Dec.Quo", "Dec.QuoTruncate", "Dec.QuoRoundUp"].contains name then
    if secondIsZero args then some "panic" else if fitsDec r then none else some "panic"
  else if ["Dec.QuoInt", "Dec.QuoInt64", "BigRecv.Div"].contains name then
    if secondIsZero args then some "panic" else none
  else if ["Dec.TruncateInt", "Dec.RoundInt", "sdkmath.NewIntFromBigInt"].contains name then
    if fitsInt r then none else some "panic"
  else if name == "Dec.TruncateInt64" then (if inRange "i64" r then none else some "panic")
  else if name == "sdkmath.NewIntWithDecimal" then
    (match args with
     | [_, .int dec] => if dec < 0 then some "panic" else if fitsInt r then none else some "panic"
     | _ => none)
  else if ["op.quo", "op.rem"].contains name && secondIsZero args then some "panic"
  else if ["op.add", "op.sub", "op.mul", "op.quo", "op.rem", "op.neg", "op.lit"].contains name && isSized tag then
    if inRange tag r then none else some "wrap"
  else if ["int", "int64", "uint64", "uint32", "int32", "uint8"].contains name then
    if inRange name r then none else some "wrap"
  else none

def evalOp (name tag : String) (args : List V) : String :=
  match (table.find? (fun p => p.1 == name)) with
  | none => "no-entry"
  | some (_, f) =>
    match f args with
    | none => "no-entry"
    | some res =>
      match sideCondition name tag args res with
      | some s => s
      | none => showV res

def coverage (given : List String) : String :=
  let uncovered := names.filter (fun n => !given.contains n)
  let unknown := given.filter (fun n => !names.contains n)
  if uncovered.isEmpty && unknown.isEmpty then "ok"
  else s!"uncovered:{joinWith "," uncovered} unknown:{joinWith "," unknown}"

def step (_ : Unit) (w : List String) : Unit × String :=
  match w with
  | "prims.reset" :: given => ((), coverage given)
  | name :: tag :: rest =>
    match parseArgs rest with
    | some args => ((), evalOp name tag args)
    | none => ((), "bad-arg")
  | _ => ((), "bad-op")

def main : IO Unit := runDriver () step

end ExoVerif.Driver.DecPrims
