import ExoVerif.Driver.Common
import ExoVerif.Model.DistributionBatch
/- driver for the C17 correspondence.
   ops:  distr.reset
         distr.cfg <distrId> <mintId> <reward> <taxRaw>
         distr.epoch <id> <start> <dur> <cur> <curStart> <started> <height>
         distr.bal <supply> <feeCollector> <mint> <distr> <community>
         distr.fee <amt>                      (bank send of an account's coins to the fee collector)
         distr.block <bt> <h> <total> <nvals> { <op> <power> <rate> <found> <nocc> { <staker> <power> }* }*
         distr.denom <native> <mintDenom>     (native denomination and the genesis MintDenom; without it both are "")
         distr.mintparams <tx|srv> <denom> <reward|nil> <id>   x/exomint MsgUpdateParams (tx: ValidateBasic first; srv: the
                                                        handler directly) → ok|rej <denom> <reward> <id> (params in force)
         distr.distrparams <tx|srv> <id> <taxRaw|nil>   x/feedistribution MsgUpdateParams (tx: ValidateBasic first; srv: the handler
                                                        directly) → ok|rej:tax|rej:epoch <id> <taxRaw> (params in force)
         distr.distrvb <id> <taxRaw|nil>                x/feedistribution MsgUpdateParams.ValidateBasic alone → ok|rej
         distr.batch <gov|sim> <n> { mint <denom> <reward|nil> <id> | distr <id> <taxRaw|nil> }*
                                                        the messages as ONE unit on a branch of the state (gov: proposal execution /
                                                        runMsgs, written back iff no message is refused; sim: never written)
                                                        → ok|rej <denom> <reward> <id>|<id> <taxRaw> (params in force)
   strings of the params ops are escaped (`%` = empty, %20 space, %09 tab, %25 percent).
   The configuration a block runs under is `cfgOf native params` (Model/DistributionParams.lean): it follows every
   accepted parameter update.
-/
namespace ExoVerif.Driver.Distribution
open ExoVerif ExoVerif.Distr ExoVerif.Driver

structure DS where
  native : String
  params : Params
  es : List Epochs.EpochInfo
  st : Option St
deriving Inhabited

/-- the configuration in force -/
def DS.cfg (d : DS) : Cfg := cfgOf d.native d.params

def emptyPool : Pool := { community := 0, commission := [], rewards := [], outstanding := [] }
def init : DS := { native := "", params := { distr := { id := "", tax := 0 }, mint := { denom := "", reward := 0, id := "" } },
                   es := [], st := some { supply := 0, fc := 0, mint := 0, distr := 0, pool := emptyPool } }

def unesc (s : String) : String :=
  if s == "%" then "" else ((s.replace "%20" " ").replace "%09" "\t").replace "%25" "%"

def esc (s : String) : String :=
  if s == "" then "%" else ((s.replace "%" "%25").replace " " "%20").replace "\t" "%09"

def showMint (m : MintParams) : String := s!"{esc m.denom} {m.reward} {esc m.id}"
def showDistr (p : DistrParams) : String := s!"{esc p.id} {p.tax}"

def insertSorted (x : String × Int) : List (String × Int) → List (String × Int)
  | [] => [x]
  | y :: rest => if x.1 < y.1 then x :: y :: rest else y :: insertSorted x rest

def sortBook (b : Book) : Book := b.foldl (fun acc x => insertSorted x acc) []

def showBook (b : Book) : String :=
  joinWith "," ((sortBook (b.filter (fun x => x.2 != 0))).map (fun x => s!"{x.1}={x.2}"))

def showEv : Epochs.Ev → String
  | .epochEnd id n => s!"E:{id}:{n}"
  | .epochStart id n => s!"S:{id}:{n}"

def showSt (s : St) (evs : List Epochs.Ev) : String :=
  s!"{s.supply} {s.fc} {s.mint} {s.distr} {s.pool.community}|C {showBook s.pool.commission}|R {showBook s.pool.rewards}|O {showBook s.pool.outstanding}|" ++ joinWith "," (evs.map showEv)

def parseOcc : Nat → List String → Option (List (String × Int) × List String)
  | 0, w => some ([], w)
  | n + 1, s :: p :: rest =>
    match parseInt? p, parseOcc n rest with
    | some p, some (occ, rest') => some ((s, p) :: occ, rest')
    | _, _ => none
  | _, _ => none

def parseVals : Nat → List String → Option (List ValIn)
  | 0, [] => some []
  | 0, _ => none
  | n + 1, op :: power :: rate :: found :: nocc :: rest =>
    match parseInt? power, parseInt? rate, parseNat? nocc with
    | some power, some rate, some nocc =>
      match parseOcc nocc rest with
      | some (occ, rest') =>
        match parseVals n rest' with
        | some vs => some ({ op := op, power := power, rate := rate, found := found == "1", stakers := occ } :: vs)
        | none => none
      | none => none
    | _, _, _ => none
  | _, _ => none

def parseBMsgs : Nat → List String → Option (List BMsg)
  | 0, [] => some []
  | 0, _ => none
  | n + 1, "mint" :: denom :: rw :: id :: rest =>
    let reward? : Option (Option Int) := if rw == "nil" then some none else (parseInt? rw).map some
    match reward?, parseBMsgs n rest with
    | some reward, some ms => some (.mint { denom := unesc denom, reward := reward, id := unesc id } :: ms)
    | _, _ => none
  | n + 1, "distr" :: id :: tx :: rest =>
    let tax? : Option (Option Int) := if tx == "nil" then some none else (parseInt? tx).map some
    match tax?, parseBMsgs n rest with
    | some tax, some ms => some (.distr { id := unesc id, tax := tax } :: ms)
    | _, _ => none
  | _, _ => none

def step (d : DS) (w : List String) : DS × String :=
  match w with
  | "distr.batch" :: route :: n :: rest =>
    match parseNat? n with
    | some n =>
      match parseBMsgs n rest with
      | some msgs =>
        let p' := applyBatch (route == "gov") d.es d.params msgs
        let st := if (batchBranch d.es d.params msgs).isSome then "ok" else "rej"
        ({ d with params := p' }, s!"{st} {showMint p'.mint}|{showDistr p'.distr}")
      | none => (d, "bad-op")
    | none => (d, "bad-op")
  | ["distr.reset"] => (init, "ok")
  | "distr.note" :: _ => (d, "ok")
  | ["distr.cfg", dId, mId, rw, tx] =>
    match parseInt? rw, parseInt? tx with
    | some rw, some tx =>
      ({ d with params := { distr := { id := dId, tax := tx }, mint := { denom := d.native, reward := rw, id := mId } } }, "ok")
    | _, _ => (d, "bad-op")
  | ["distr.denom", native, mintDenom] =>
    ({ d with native := native, params := { d.params with mint := { d.params.mint with denom := mintDenom } } }, "ok")
  | ["distr.mintparams", path, denom, rw, id] =>
    let reward? : Option (Option Int) := if rw == "nil" then some none else (parseInt? rw).map some
    match reward? with
    | some reward =>
      match mintDeliver (path == "tx") (knownId d.es) d.params.mint { denom := unesc denom, reward := reward, id := unesc id } with
      | some mp => ({ d with params := { d.params with mint := mp } }, "ok " ++ showMint mp)
      | none => (d, "rej " ++ showMint d.params.mint)
    | none => (d, "bad-op")
  | ["distr.distrparams", path, id, tx] =>
    let tax? : Option (Option Int) := if tx == "nil" then some none else (parseInt? tx).map some
    match tax? with
    | some tax =>
      match distrDeliver (path == "tx") (knownId d.es) d.params.distr { id := unesc id, tax := tax } with
      | .ok dp => ({ d with params := { d.params with distr := dp } }, "ok " ++ showDistr dp)
      | .error .taxOutOfRange => (d, "rej:tax " ++ showDistr d.params.distr)
      | .error .epochNotFound => (d, "rej:epoch " ++ showDistr d.params.distr)
    | none => (d, "bad-op")
  | ["distr.distrvb", id, tx] =>
    let tax? : Option (Option Int) := if tx == "nil" then some none else (parseInt? tx).map some
    match tax? with
    | some tax => (d, if DistrMsg.validateBasic { id := unesc id, tax := tax } then "ok" else "rej")
    | none => (d, "bad-op")
  | ["distr.epoch", id, st, dur, cur, curSt, started, hgt] =>
    match parseInt? st, parseInt? dur, parseInt? cur, parseInt? curSt, parseInt? hgt with
    | some st, some dur, some cur, some curSt, some hgt =>
      let e : Epochs.EpochInfo :=
        { identifier := id, startTime := st, duration := dur, currentEpoch := cur,
          currentEpochStartTime := curSt, epochCountingStarted := started == "1",
          currentEpochStartHeight := hgt }
      ({ d with es := d.es ++ [e] }, "ok")
    | _, _, _, _, _ => (d, "bad-op")
  | ["distr.bal", supply, fc, mint, distr, community] =>
    match parseInt? supply, parseInt? fc, parseInt? mint, parseInt? distr, parseInt? community with
    | some supply, some fc, some mint, some distr, some community =>
      ({ d with st := some { supply := supply, fc := fc, mint := mint, distr := distr,
                             pool := { emptyPool with community := community } } }, "ok")
    | _, _, _, _, _ => (d, "bad-op")
  | ["distr.fee", amt] =>
    match parseInt? amt, d.st with
    | some amt, some s => ({ d with st := some { s with fc := s.fc + amt } }, "ok")
    | some _, none => (d, "halt")
    | _, _ => (d, "bad-op")
  | "distr.block" :: bt :: h :: total :: nvals :: rest =>
    match parseInt? bt, parseInt? h, parseInt? total, parseNat? nvals with
    | some bt, some h, some total, some nvals =>
      match parseVals nvals rest, d.st with
      | some vals, some s =>
        let (es', evs, s') := block d.cfg d.es s { bt := bt, h := h, total := total, vals := vals }
        match s' with
        | some s' => ({ d with es := es', st := some s' }, showSt s' evs)
        | none => ({ d with es := es', st := none }, "halt")
      | some _, none => (d, "halt")
      | none, _ => (d, "bad-op")
    | _, _, _, _ => (d, "bad-op")
  | _ => (d, "bad-op")

def main : IO Unit := runDriver init step

end ExoVerif.Driver.Distribution
