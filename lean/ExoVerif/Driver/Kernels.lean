import ExoVerif.Driver.Common
import ExoVerif.Model.Ledger
import ExoVerif.Model.VotingPower
import ExoVerif.Model.Oracle
import ExoVerif.Model.EvmFee
import ExoVerif.Model.Epochs
import ExoVerif.Generated.Fixture
/- driver of the kernel conformance run (harness domain `kernels`, harness/dom_kernels.go).

   The harness calls the REAL Go function every regenerated kernel is translated from, on a boundary grid +
   random operands; this driver evaluates, on the same operands,
     * `exodriver Kernels`         : the MODEL definitions (`modelImpl`), which the `*_tie_*` theorems prove
                                     equal to the regenerated kernels for all inputs;
     * `lean --run GenKernels.lean`: the REGENERATED definitions of Generated/Kernels.lean themselves
                                     (`genImpl` there), through the same `step`.
   The `fx.*` ops evaluate the translation of the translator's fixture (Generated/Fixture.lean, = the golden
   text when `exofacts -selftest` passes) against the harness executing the fixture's Go text.

   ops / obs (Dec operands are raw 10^-18 units):
     kernels.reset                                                     ok
     tokensFromShares <stakerShare> <totalShare> <totalAmount>         ok <int> | err <Sentinel> | panic
     sharesFromTokens <totalShare> <stakerAmount> <totalAmount>        ok <raw> | err <Sentinel> | panic
     calculateUSDValue <amount> <price> <assetDecimal> <priceDecimal>  <raw> | panic
     updateAssetValue <value> <change>                                 ok <int> | err <Sentinel> | panic
     updateAssetDecValue <value> <change>                              ok <raw> | err <Sentinel> | panic
     slashFromUndelegation <amount> <actualCompleted> <proportion>     <actualCompleted'> <slashAmount> | panic
     oracleExceedsThreshold <power> <totalPower> <A> <B>               true | false
     evmGasToRefund <availableRefund> <gasConsumed> <refundQuotient>   <int> | panic
     epochInfoValidate <identifier|_> <duration> <currentEpoch> <currentEpochStartHeight>   ok | err
     fx.clamp x lo hi | fx.arith a b | fx.bool a b f | fx.decChain s t n | fx.share total part whole |
     fx.update v c | fx.check tag period count | fx.sweep tag start period count opened live balance now height

   `panic` is the side condition the total Lean function does not carry (Int > 256 bits, LegacyDec > 315 bits,
   zero divisor): stated in `step`, shared by both implementations, checked against Go by the run. -/
namespace ExoVerif.Driver.Kernels
open ExoVerif ExoVerif.Driver

/-- the functions under test: the model's definitions, or the regenerated ones -/
structure Impl where
  tokensFromShares : Dec → Dec → Int → Except String Int
  sharesFromTokens : Dec → Int → Int → Except String Dec
  usdValueRaw : Int → Int → Int → Int → Int
  updateAssetValue : Int → Int → Except String Int
  updateAssetDecValue : Dec → Dec → Except String Dec
  slashFromUndelegation : Ledger.URec → Dec → Ledger.URec × Int
  exceedsThreshold : Int → Int → Int → Int → Bool
  gasToRefund : Int → Int → Int → Int
  epochValid : Epochs.EpochInfo → Bool

def modelImpl : Impl where
  tokensFromShares := Ledger.tokensFromShares
  sharesFromTokens := Ledger.sharesFromTokens
  usdValueRaw := VP.usdValue
  updateAssetValue := Ledger.upd
  updateAssetDecValue := Ledger.updDec
  slashFromUndelegation := Ledger.slashFromUndelegation
  exceedsThreshold := Oracle.exceedsThreshold
  gasToRefund := EvmFee.gasToRefund
  epochValid := Epochs.valid

def fitsInt (x : Int) : Bool := x.natAbs < 2 ^ 256
def fitsDec (x : Int) : Bool := x.natAbs < 2 ^ 315

def showExI : Except String Int → String
  | .ok v => s!"ok {v}"
  | .error e => s!"err {e}"

def showExD : Except String Dec → String
  | .ok v => s!"ok {v.raw}"
  | .error e => s!"err {e}"

def showEv : Gen.Fixture.Ev → String
  | .closed t n => s!"close:{t}:{n}"
  | .opened t n => s!"open:{t}:{n}"

def showRec (r : Gen.Fixture.Rec) : String :=
  s!"{r.tag} {r.start} {r.period} {r.count} {r.opened} {r.live} {r.balance}"

def tagOf (s : String) : String := if s == "_" then "" else s

def step (impl : Impl) (_ : Unit) (w : List String) : Unit × String :=
  let i := parseInt!
  match w with
  | ["kernels.reset"] => ((), "ok")
  | ["tokensFromShares", s, S, T] =>
    let (s, S, T) := (i s, i S, i T)
    let r := impl.tokensFromShares ⟨s⟩ ⟨S⟩ T
    -- MulInt and QuoTruncate check the 315-bit bound (only reached on the division path)
    let reached := !(S < s) && S != 0
    let num := s * T
    let q := Dec.quoTruncate ⟨num⟩ ⟨S⟩
    ((), if reached && (!fitsDec num || !fitsDec q.raw) then "panic" else showExI r)
  | ["sharesFromTokens", S, x, T] =>
    let (S, x, T) := (i S, i x, i T)
    ((), if T != 0 && !fitsDec (S * x) then "panic" else showExD (impl.sharesFromTokens ⟨S⟩ x T))
  | ["calculateUSDValue", a, p, ad, pd] =>
    let (a, p, ad, pd) := (i a, i p, i ad, i pd)
    -- Int.Mul and NewIntWithDecimal check the 256-bit bound
    ((), if !fitsInt (a * p) || !fitsInt ((10 : Int) ^ (ad + pd).toNat) then "panic" else toString (impl.usdValueRaw a p ad pd))
  | ["updateAssetValue", v, d] =>
    let (v, d) := (i v, i d)
    let r := impl.updateAssetValue v d
    ((), match r with
         | .ok x => if fitsInt x then showExI r else "panic"
         | .error _ => showExI r)
  | ["updateAssetDecValue", v, d] =>
    let (v, d) := (i v, i d)
    let r := impl.updateAssetDecValue ⟨v⟩ ⟨d⟩
    ((), match r with
         | .ok x => if fitsDec x.raw then showExD r else "panic"
         | .error _ => showExD r)
  | ["slashFromUndelegation", amt, act, p] =>
    let (amt, act, p) := (i amt, i act, i p)
    let r : Ledger.URec := { staker := "s", asset := "a", op := "o", hash := "h", nonce := 0, blockNumber := 0,
                             completeBlock := 0, amount := amt, actual := act }
    let res := impl.slashFromUndelegation r ⟨p⟩
    ((), if act != 0 && !fitsDec (p * amt) then "panic" else s!"{res.1.actual} {res.2}")
  | ["oracleExceedsThreshold", p, t, a, b] => ((), toString (impl.exceedsThreshold (i p) (i t) (i a) (i b)))
  | ["evmGasToRefund", a, c, q] =>
    ((), if i q == 0 then "panic" else toString (impl.gasToRefund (i a) (i c) (i q)))
  | ["epochInfoValidate", id, dur, cur, h] =>
    let e : Epochs.EpochInfo := { identifier := tagOf id, startTime := 0, duration := i dur, currentEpoch := i cur,
                                  currentEpochStartTime := 0, epochCountingStarted := false, currentEpochStartHeight := i h }
    ((), if impl.epochValid e then "ok" else "err")
  -- the translator's fixture (no model counterpart: the regenerated text is what is evaluated)
  | ["fx.clamp", x, lo, hi] => ((), toString (Gen.Fixture.fxClamp (i x) (i lo) (i hi)))
  | ["fx.arith", a, b] => ((), toString (Gen.Fixture.fxArith (i a) (i b)))
  | ["fx.bool", a, b, f] => ((), toString (Gen.Fixture.fxBool (i a) (i b) (f == "1")))
  | ["fx.decChain", s, t, n] => ((), showExI (Gen.Fixture.fxDecChain ⟨i s⟩ ⟨i t⟩ (i n)))
  | ["fx.share", tot, part, whole] => ((), showExD (Gen.Fixture.fxShare ⟨i tot⟩ (i part) (i whole)))
  | ["fx.update", v, c] => ((), showExI (Gen.Fixture.fxUpdate (i v) (i c)))
  | ["fx.check", tag, period, count] =>
    let r : Gen.Fixture.Rec := { tag := tagOf tag, start := 0, period := i period, count := i count, opened := 0, live := false, balance := 0 }
    ((), match Gen.Fixture.fxRecCheck r with
         | .ok _ => "ok"
         | .error e => "err " ++ e)
  | ["fx.sweep", tag, start, period, count, opened, live, bal, now, height] =>
    let r : Gen.Fixture.Rec := { tag := tagOf tag, start := i start, period := i period, count := i count, opened := i opened,
                                 live := live == "1", balance := i bal }
    let res := Gen.Fixture.fxSweep r (i now) (i height)
    ((), showRec res.1 ++ " | " ++ joinWith ";" (res.2.map showEv))
  | _ => ((), "bad-op")

def main : IO Unit := runDriver () (step modelImpl)

end ExoVerif.Driver.Kernels
