import ExoVerif.Driver.Kernels
import ExoVerif.Generated.Kernels
/-!
`lake env lean --run GenKernels.lean < ops.txt` — the kernel conformance run of Driver/Kernels.lean with the
REGENERATED definitions of Generated/Kernels.lean plugged in instead of the model's (./check runs it for a
registry run that names `"gen_script": "GenKernels.lean"` and compares its output with the harness's
observations: violation `gen-diff:<domain>`). Together with `exodriver Kernels` this separates
"translator wrong" (this run differs) from "model wrong" (that run differs); a translator error that the
model happens to share is still caught here because the reference is the executed Go function.

Not part of `exodriver`: it imports Generated/Kernels.lean, which does not exist in full when a Go edit makes
a kernel untranslatable (then this script does not elaborate and the run is a broken obligation, as the
kernel itself already is).
-/
open ExoVerif ExoVerif.Driver ExoVerif.Driver.Kernels

def genImpl : Impl where
  tokensFromShares := Gen.tokensFromShares
  sharesFromTokens := Gen.sharesFromTokens
  usdValueRaw := fun a p ad pd => (Gen.calculateUSDValue a p ad pd).raw
  updateAssetValue := Gen.updateAssetValue
  updateAssetDecValue := Gen.updateAssetDecValue
  slashFromUndelegation := Gen.slashFromUndelegation
  exceedsThreshold := Gen.oracleExceedsThreshold
  gasToRefund := Gen.evmGasToRefund
  epochValid := fun e => match Gen.epochInfoValidate e with
    | .ok _ => true
    | .error _ => false

def main : IO Unit := runDriver () (step genImpl)
